// rsfacts: libTooling fact dumper for ROOT-Sim/core.
//
// It is deliberately a *dumper*: it resolves one translation unit with clang's type checker and writes,
// for every function defined in a repository file (including `static inline` functions from headers):
//   - the full statement/expression tree with resolved callees, members, declarations, atomics, constants,
//     the expansion line of every node and the stack of macros whose *body* produced it;
//   - clang's CFG (all sub-expressions added, no pruning) as blocks of node ids;
// and per unit: record layouts, enum constants, globals (with storage class / TLS / constness / initialiser).
// All rules live in Python (rsv/*.py).
#include "clang/AST/ASTConsumer.h"
#include "clang/AST/ASTContext.h"
#include "clang/AST/Expr.h"
#include "clang/AST/RecordLayout.h"
#include "clang/AST/RecursiveASTVisitor.h"
#include "clang/Analysis/CFG.h"
#include "clang/Basic/Builtins.h"
#include "clang/Frontend/CompilerInstance.h"
#include "clang/Frontend/FrontendAction.h"
#include "clang/Lex/Lexer.h"
#include "clang/Tooling/CommonOptionsParser.h"
#include "clang/Tooling/Tooling.h"
#include "llvm/Support/CommandLine.h"
#include "llvm/Support/JSON.h"
#include "llvm/Support/raw_ostream.h"

#include <map>
#include <set>
#include <string>

using namespace clang;
using namespace clang::tooling;
namespace json = llvm::json;

static llvm::cl::OptionCategory Cat("rsfacts options");
static llvm::cl::opt<std::string> OutFile("o", llvm::cl::desc("output JSON file"), llvm::cl::Required,
    llvm::cl::cat(Cat));
static llvm::cl::opt<std::string> RepoRoot("root", llvm::cl::desc("repository root (only decls in files below it are dumped)"),
    llvm::cl::Required, llvm::cl::cat(Cat));
static llvm::cl::opt<std::string> ConfigName("config", llvm::cl::desc("configuration label"), llvm::cl::init("asbuilt"),
    llvm::cl::cat(Cat));

namespace {

static const char *atomicOpName(AtomicExpr::AtomicOp Op)
{
	switch(Op) {
#define BUILTIN(ID, TYPE, ATTRS)
#define ATOMIC_BUILTIN(ID, TYPE, ATTRS)                                                                                \
	case AtomicExpr::AO##ID:                                                                                       \
		return #ID;
#include "clang/Basic/Builtins.def"
	}
	return "?";
}

class Dumper {
      public:
	Dumper(ASTContext &C) : Ctx(C), SM(C.getSourceManager()), LO(C.getLangOpts()) {}

	ASTContext &Ctx;
	SourceManager &SM;
	const LangOptions &LO;

	std::map<std::string, int> FileIdx;
	json::Array Files;
	std::map<const Decl *, int> DeclIds;

	bool inRepo(SourceLocation L)
	{
		if(L.isInvalid())
			return false;
		SourceLocation E = SM.getExpansionLoc(L);
		StringRef F = SM.getFilename(E);
		return F.startswith(RepoRoot);
	}

	int fileIndex(StringRef F)
	{
		std::string S = F.str();
		if(StringRef(S).startswith(RepoRoot)) {
			S = S.substr(RepoRoot.size());
			while(!S.empty() && S[0] == '/')
				S = S.substr(1);
		}
		// normalise "src/./lp/lp.h" -> "src/lp/lp.h"
		size_t p;
		while((p = S.find("/./")) != std::string::npos)
			S.erase(p, 2);
		auto It = FileIdx.find(S);
		if(It != FileIdx.end())
			return It->second;
		int I = Files.size();
		Files.push_back(S);
		FileIdx[S] = I;
		return I;
	}

	int declId(const Decl *D)
	{
		D = D->getCanonicalDecl();
		auto It = DeclIds.find(D);
		if(It != DeclIds.end())
			return It->second;
		int I = DeclIds.size() + 1;
		DeclIds[D] = I;
		return I;
	}

	json::Array macroStack(SourceLocation L)
	{
		json::Array Stack;
		SourceLocation Cur = L;
		int guard = 0;
		while(Cur.isMacroID() && guard++ < 64) {
			if(SM.isMacroArgExpansion(Cur)) {
				Cur = SM.getImmediateSpellingLoc(Cur);
			} else {
				StringRef N = Lexer::getImmediateMacroName(Cur, SM, LO);
				Stack.push_back(N.str());
				Cur = SM.getImmediateExpansionRange(Cur).getBegin();
			}
		}
		return Stack;
	}

	void setLoc(json::Object &O, SourceLocation L)
	{
		if(L.isInvalid())
			return;
		SourceLocation E = SM.getExpansionLoc(L);
		PresumedLoc P = SM.getPresumedLoc(E);
		if(P.isValid()) {
			O["f"] = fileIndex(SM.getFilename(E));
			O["l"] = (int64_t)P.getLine();
		}
		if(L.isMacroID()) {
			json::Array Stack;
			SourceLocation Cur = L;
			int guard = 0;
			while(Cur.isMacroID() && guard++ < 64) {
				if(SM.isMacroArgExpansion(Cur)) {
					Cur = SM.getImmediateSpellingLoc(Cur);
				} else {
					StringRef N = Lexer::getImmediateMacroName(Cur, SM, LO);
					Stack.push_back(N.str());
					Cur = SM.getImmediateExpansionRange(Cur).getBegin();
				}
			}
			if(!Stack.empty())
				O["m"] = std::move(Stack);
		}
	}

	std::string macroCallText(SourceLocation L)
	{
		// source text of the invocation of the innermost macro whose body produced L
		SourceLocation Cur = L;
		int guard = 0;
		while(Cur.isMacroID() && guard++ < 64) {
			if(SM.isMacroArgExpansion(Cur)) {
				Cur = SM.getImmediateSpellingLoc(Cur);
			} else {
				CharSourceRange R = SM.getImmediateExpansionRange(Cur);
				bool Invalid = false;
				StringRef T = Lexer::getSourceText(R, SM, LO, &Invalid);
				if(Invalid)
					return "";
				std::string S = T.str();
				if(S.size() > 400)
					S = S.substr(0, 400);
				return S;
			}
		}
		return "";
	}

	static const char *storageOf(const VarDecl *V)
	{
		if(isa<ParmVarDecl>(V))
			return "param";
		if(V->isStaticLocal())
			return "static_local";
		if(V->isLocalVarDecl())
			return "local";
		if(V->hasExternalStorage())
			return "extern";
		if(V->getStorageClass() == SC_Static)
			return "file_static";
		return "global";
	}

	void typeInfo(json::Object &O, QualType T)
	{
		if(T.isNull())
			return;
		O["t"] = T.getAsString();
		QualType CT = T.getCanonicalType();
		if(CT->isIntegerType() && !CT->isIncompleteType()) {
			O["ti"] = json::Array{(int64_t)Ctx.getTypeSize(CT), CT->isSignedIntegerOrEnumerationType() ? 1 : 0};
		} else if(CT->isRealFloatingType()) {
			O["tf"] = (int64_t)Ctx.getTypeSize(CT);
		} else if(CT->isPointerType()) {
			O["tp"] = 1;
		}
		if(CT.isConstQualified())
			O["tc"] = 1;
	}

	// ---------------------------------------------------------------------------------------------
	struct FnState {
		json::Array Nodes;
		std::map<const Stmt *, int> Ids;
		std::map<const VarDecl *, int> VarNodes;
	};

	int dumpVarDecl(FnState &FS, const VarDecl *V)
	{
		int Id = FS.Nodes.size();
		FS.Nodes.push_back(nullptr);
		json::Object O;
		O["k"] = "VarDecl";
		O["name"] = V->getNameAsString();
		O["did"] = declId(V);
		O["sc"] = storageOf(V);
		if(V->getTLSKind() != VarDecl::TLS_None)
			O["tls"] = 1;
		typeInfo(O, V->getType());
		setLoc(O, V->getLocation());
		json::Array Ch;
		if(V->hasInit())
			Ch.push_back(dumpStmt(FS, V->getInit()));
		// VLA size expressions are evaluated too, keep them reachable
		O["c"] = std::move(Ch);
		FS.Nodes[Id] = std::move(O);
		FS.VarNodes[V] = Id;
		return Id;
	}

	int dumpStmt(FnState &FS, const Stmt *S)
	{
		int Id = FS.Nodes.size();
		FS.Nodes.push_back(nullptr);
		if(!S) {
			json::Object O;
			O["k"] = "Null";
			FS.Nodes[Id] = std::move(O);
			return Id;
		}
		FS.Ids[S] = Id;
		json::Object O;
		O["k"] = S->getStmtClassName();
		setLoc(O, S->getBeginLoc());
		if(S->getEndLoc().isValid() && S->getEndLoc().isMacroID()) {
			json::Array E = macroStack(S->getEndLoc());
			if(!E.empty())
				O["me"] = std::move(E);
		}
		json::Array Ch;
		bool childrenDone = false;

		if(const auto *E = dyn_cast<Expr>(S)) {
			typeInfo(O, E->getType());
			if(E->isLValue())
				O["lv"] = 1;
			// constant value, when the expression is an integer constant the compiler can fold
			if(!isa<IntegerLiteral>(E) && !E->isValueDependent() && E->getType()->isIntegralOrEnumerationType()) {
				Expr::EvalResult R;
				if(E->EvaluateAsInt(R, Ctx, Expr::SE_NoSideEffects)) {
					llvm::APSInt V = R.Val.getInt();
					if(V.isSigned() || V.getActiveBits() < 64)
						O["cv"] = (int64_t)V.getExtValue();
					else
						O["cvs"] = llvm::toString(V, 10);
				}
			} else if(!isa<FloatingLiteral>(E) && !E->isValueDependent() && E->getType()->isRealFloatingType()) {
				llvm::APFloat F(0.0);
				if(E->EvaluateAsFloat(F, Ctx, Expr::SE_NoSideEffects)) {
					bool lose;
					F.convert(llvm::APFloat::IEEEdouble(), llvm::APFloat::rmNearestTiesToEven, &lose);
					double d = F.convertToDouble();
					if(d == d && d <= 1.7976931348623157e308 && d >= -1.7976931348623157e308)
						O["cvf"] = d;
				}
			}
		}

		if(const auto *B = dyn_cast<BinaryOperator>(S)) {
			O["op"] = B->getOpcodeStr().str();
			if(const auto *CA = dyn_cast<CompoundAssignOperator>(S)) {
				json::Object T;
				typeInfo(T, CA->getComputationResultType());
				O["comp"] = std::move(T);
			}
		} else if(const auto *U = dyn_cast<UnaryOperator>(S)) {
			O["op"] = UnaryOperator::getOpcodeStr(U->getOpcode()).str();
			O["postfix"] = U->isPostfix() ? 1 : 0;
		} else if(const auto *D = dyn_cast<DeclRefExpr>(S)) {
			const ValueDecl *VD = D->getDecl();
			O["name"] = VD->getNameAsString();
			O["did"] = declId(VD);
			if(const auto *V = dyn_cast<VarDecl>(VD)) {
				O["dk"] = "var";
				O["sc"] = storageOf(V);
				if(V->getTLSKind() != VarDecl::TLS_None)
					O["tls"] = 1;
			} else if(isa<FunctionDecl>(VD)) {
				O["dk"] = "fn";
			} else if(const auto *EC = dyn_cast<EnumConstantDecl>(VD)) {
				O["dk"] = "enum";
				O["val"] = (int64_t)EC->getInitVal().getExtValue();
				if(const auto *ED = dyn_cast<EnumDecl>(EC->getDeclContext()))
					O["enum"] = ED->getNameAsString();
			} else {
				O["dk"] = "other";
			}
		} else if(const auto *M = dyn_cast<MemberExpr>(S)) {
			O["name"] = M->getMemberDecl()->getNameAsString();
			O["arrow"] = M->isArrow() ? 1 : 0;
			if(const auto *FD = dyn_cast<FieldDecl>(M->getMemberDecl())) {
				const RecordDecl *RD = FD->getParent();
				// climb out of anonymous structs/unions
				const RecordDecl *Outer = RD;
				while(Outer->isAnonymousStructOrUnion()) {
					const auto *P = dyn_cast<RecordDecl>(Outer->getDeclContext());
					if(!P)
						break;
					Outer = P;
				}
				O["rec"] = Outer->getNameAsString();
			}
		} else if(const auto *C = dyn_cast<CallExpr>(S)) {
			if(const FunctionDecl *FD = C->getDirectCallee()) {
				O["callee"] = FD->getNameAsString();
				if(FD->isNoReturn() || FD->hasAttr<NoReturnAttr>() ||
				    FD->getBuiltinID() == Builtin::BI__builtin_unreachable)
					O["noreturn"] = 1;
				if(FD->getBuiltinID())
					O["builtin"] = 1;
			}
		} else if(const auto *I = dyn_cast<IntegerLiteral>(S)) {
			llvm::APInt V = I->getValue();
			if(V.getActiveBits() < 64)
				O["val"] = (int64_t)V.getZExtValue();
			else
				O["vals"] = llvm::toString(V, 10, false);
		} else if(const auto *F = dyn_cast<FloatingLiteral>(S)) {
			O["val"] = F->getValueAsApproximateDouble();
		} else if(const auto *CL = dyn_cast<CharacterLiteral>(S)) {
			O["val"] = (int64_t)CL->getValue();
		} else if(const auto *SL = dyn_cast<StringLiteral>(S)) {
			if(SL->isAscii() || SL->isUTF8())
				O["val"] = SL->getString().str();
		} else if(const auto *A = dyn_cast<AtomicExpr>(S)) {
			O["aop"] = atomicOpName(A->getOp());
			Expr::EvalResult R;
			if(A->getOrder() && A->getOrder()->EvaluateAsInt(R, Ctx))
				O["order"] = (int64_t)R.Val.getInt().getExtValue();
			if(A->isCmpXChg() && A->getOrderFail() && A->getOrderFail()->EvaluateAsInt(R, Ctx))
				O["order_fail"] = (int64_t)R.Val.getInt().getExtValue();
			// children in a fixed role order: ptr, [val1], [val2], (orders are constants, omitted)
			Ch.push_back(dumpStmt(FS, A->getPtr()));
			json::Array Roles{"ptr"};
			switch(A->getOp()) {
				case AtomicExpr::AO__c11_atomic_load:
				case AtomicExpr::AO__atomic_load_n:
					break;
				default:
					if(A->getNumSubExprs() > 2) {
						Ch.push_back(dumpStmt(FS, A->getVal1()));
						Roles.push_back("val1");
					}
					if(A->isCmpXChg()) {
						Ch.push_back(dumpStmt(FS, A->getVal2()));
						Roles.push_back("val2");
					}
			}
			O["roles"] = std::move(Roles);
			childrenDone = true;
		} else if(const auto *CE = dyn_cast<CastExpr>(S)) {
			O["ck"] = CE->getCastKindName();
		} else if(const auto *UE = dyn_cast<UnaryExprOrTypeTraitExpr>(S)) {
			O["trait"] = (int64_t)UE->getKind();
			if(UE->isArgumentType()) {
				O["argt"] = UE->getArgumentType().getAsString();
				childrenDone = true; // no evaluated children
			} else {
				O["argt"] = UE->getArgumentExpr()->getType().getAsString();
				// unevaluated operand: keep as child but mark
				O["uneval"] = 1;
			}
		} else if(const auto *CS = dyn_cast<CaseStmt>(S)) {
			Expr::EvalResult R;
			if(CS->getLHS()->EvaluateAsInt(R, Ctx))
				O["val"] = (int64_t)R.Val.getInt().getExtValue();
			if(const auto *DR = dyn_cast<DeclRefExpr>(CS->getLHS()->IgnoreParenImpCasts()))
				O["label"] = DR->getDecl()->getNameAsString();
		} else if(const auto *SW = dyn_cast<SwitchStmt>(S)) {
			QualType CT = SW->getCond()->IgnoreParenImpCasts()->getType();
			if(const auto *ET = CT->getAs<EnumType>())
				O["enum"] = ET->getDecl()->getNameAsString();
			json::Array Cases;
			bool HasDefault = false;
			for(const SwitchCase *SC = SW->getSwitchCaseList(); SC; SC = SC->getNextSwitchCase()) {
				if(isa<DefaultStmt>(SC))
					HasDefault = true;
			}
			O["has_default"] = HasDefault ? 1 : 0;
		} else if(const auto *SE = dyn_cast<StmtExpr>(S)) {
			if(SE->getBeginLoc().isMacroID())
				O["mcall"] = macroCallText(SE->getBeginLoc());
		} else if(const auto *CH = dyn_cast<ChooseExpr>(S)) {
			Ch.push_back(dumpStmt(FS, CH->getChosenSubExpr()));
			childrenDone = true;
		} else if(const auto *DS = dyn_cast<DeclStmt>(S)) {
			for(const Decl *D : DS->decls()) {
				if(const auto *V = dyn_cast<VarDecl>(D))
					Ch.push_back(dumpVarDecl(FS, V));
			}
			childrenDone = true;
		} else if(const auto *IL = dyn_cast<InitListExpr>(S)) {
			const InitListExpr *Sem = IL->isSemanticForm() ? IL : IL->getSemanticForm();
			if(!Sem)
				Sem = IL;
			for(const Expr *E : Sem->inits())
				Ch.push_back(dumpStmt(FS, E));
			if(Sem->hasArrayFiller())
				O["filler"] = 1;
			childrenDone = true;
		} else if(const auto *OE = dyn_cast<OffsetOfExpr>(S)) {
			(void)OE;
		} else if(const auto *GS = dyn_cast<GotoStmt>(S)) {
			O["label"] = GS->getLabel()->getNameAsString();
		} else if(const auto *LS = dyn_cast<LabelStmt>(S)) {
			O["label"] = LS->getName();
		}

		if(!childrenDone) {
			for(const Stmt *C : S->children())
				Ch.push_back(dumpStmt(FS, C));
		}
		O["c"] = std::move(Ch);
		FS.Nodes[Id] = std::move(O);
		return Id;
	}

	json::Value dumpCFG(FnState &FS, const FunctionDecl *FD)
	{
		CFG::BuildOptions BO;
		BO.setAllAlwaysAdd();
		BO.PruneTriviallyFalseEdges = false;
		BO.AddImplicitDtors = false;
		BO.AddEHEdges = false;
		std::unique_ptr<CFG> G = CFG::buildCFG(FD, FD->getBody(), &Ctx, BO);
		if(!G)
			return nullptr;
		json::Object Out;
		Out["entry"] = (int64_t)G->getEntry().getBlockID();
		Out["exit"] = (int64_t)G->getExit().getBlockID();
		json::Array Blocks;
		for(const CFGBlock *B : *G) {
			json::Object JB;
			JB["id"] = (int64_t)B->getBlockID();
			json::Array Elems;
			for(const CFGElement &E : *B) {
				if(auto SE = E.getAs<CFGStmt>()) {
					const Stmt *S = SE->getStmt();
					if(const auto *DS = dyn_cast<DeclStmt>(S)) {
						for(const Decl *D : DS->decls())
							if(const auto *V = dyn_cast<VarDecl>(D)) {
								auto It = FS.VarNodes.find(V);
								if(It != FS.VarNodes.end())
									Elems.push_back(It->second);
							}
						continue;
					}
					auto It = FS.Ids.find(S);
					if(It != FS.Ids.end())
						Elems.push_back(It->second);
				}
			}
			JB["e"] = std::move(Elems);
			if(const Stmt *T = B->getTerminatorStmt()) {
				auto It = FS.Ids.find(T);
				if(It != FS.Ids.end())
					JB["term"] = It->second;
				JB["termk"] = T->getStmtClassName();
			}
			if(const Stmt *TC = B->getTerminatorCondition()) {
				auto It = FS.Ids.find(TC);
				if(It != FS.Ids.end())
					JB["cond"] = It->second;
			}
			if(const Stmt *L = B->getLabel()) {
				auto It = FS.Ids.find(L);
				if(It != FS.Ids.end())
					JB["label"] = It->second;
			}
			if(B->hasNoReturnElement())
				JB["noreturn"] = 1;
			json::Array Succs;
			for(auto I = B->succ_begin(); I != B->succ_end(); ++I) {
				const CFGBlock *SB = I->getReachableBlock();
				if(!SB)
					SB = I->getPossiblyUnreachableBlock();
				if(SB)
					Succs.push_back((int64_t)SB->getBlockID());
				else
					Succs.push_back(nullptr);
			}
			JB["s"] = std::move(Succs);
			Blocks.push_back(std::move(JB));
		}
		Out["blocks"] = std::move(Blocks);
		return std::move(Out);
	}

	json::Value dumpFunction(const FunctionDecl *FD)
	{
		FnState FS;
		json::Object F;
		F["name"] = FD->getNameAsString();
		setLoc(F, FD->getLocation());
		F["static"] = FD->getStorageClass() == SC_Static ? 1 : 0;
		F["inline"] = FD->isInlineSpecified() ? 1 : 0;
		F["did"] = declId(FD);
		json::Object RT;
		typeInfo(RT, FD->getReturnType());
		F["ret"] = std::move(RT);
		json::Array Ps;
		for(const ParmVarDecl *P : FD->parameters()) {
			json::Object JP;
			JP["name"] = P->getNameAsString();
			JP["did"] = declId(P);
			typeInfo(JP, P->getType());
			Ps.push_back(std::move(JP));
		}
		F["params"] = std::move(Ps);
		SourceLocation EndL = SM.getExpansionLoc(FD->getBody()->getEndLoc());
		F["endl"] = (int64_t)SM.getPresumedLoc(EndL).getLine();
		int Root = dumpStmt(FS, FD->getBody());
		F["root"] = Root;
		json::Value G = dumpCFG(FS, FD);
		F["nodes"] = std::move(FS.Nodes);
		F["cfg"] = std::move(G);
		return std::move(F);
	}

	void flattenFields(const RecordDecl *RD, uint64_t Base, json::Array &Out, const std::string &Prefix)
	{
		if(!RD->isCompleteDefinition() || RD->isInvalidDecl())
			return;
		const ASTRecordLayout &L = Ctx.getASTRecordLayout(RD);
		unsigned I = 0;
		for(const FieldDecl *FD : RD->fields()) {
			uint64_t Off = Base + L.getFieldOffset(I++);
			if(FD->isAnonymousStructOrUnion()) {
				if(const auto *RT = FD->getType()->getAs<RecordType>())
					flattenFields(RT->getDecl(), Off, Out, Prefix);
				continue;
			}
			json::Object JF;
			JF["name"] = Prefix + FD->getNameAsString();
			JF["off"] = (int64_t)(Off / 8);
			QualType T = FD->getType();
			JF["type"] = T.getAsString();
			if(!T->isIncompleteType() && !T->isDependentType())
				JF["size"] = (int64_t)Ctx.getTypeSizeInChars(T).getQuantity();
			else
				JF["size"] = 0;
			if(T.getCanonicalType()->isAtomicType())
				JF["atomic"] = 1;
			Out.push_back(std::move(JF));
		}
	}

	json::Value dumpRecord(const RecordDecl *RD)
	{
		json::Object R;
		R["name"] = RD->getNameAsString();
		R["union"] = RD->isUnion() ? 1 : 0;
		setLoc(R, RD->getLocation());
		const ASTRecordLayout &L = Ctx.getASTRecordLayout(RD);
		R["size"] = (int64_t)L.getSize().getQuantity();
		R["align"] = (int64_t)L.getAlignment().getQuantity();
		json::Array Fs;
		flattenFields(RD, 0, Fs, "");
		R["fields"] = std::move(Fs);
		return std::move(R);
	}

	json::Value dumpGlobal(const VarDecl *V, const FunctionDecl *Encl)
	{
		json::Object G;
		G["name"] = V->getNameAsString();
		G["did"] = declId(V);
		G["sc"] = storageOf(V);
		if(V->getTLSKind() != VarDecl::TLS_None)
			G["tls"] = 1;
		typeInfo(G, V->getType());
		if(V->getType().getCanonicalType()->isAtomicType())
			G["atomic"] = 1;
		if(const auto *AT = Ctx.getAsArrayType(V->getType())) {
			if(AT->getElementType().isConstQualified())
				G["elem_const"] = 1;
			if(AT->getElementType().getCanonicalType()->isAtomicType())
				G["atomic"] = 1;
			if(const auto *CAT = dyn_cast<ConstantArrayType>(AT))
				G["nelem"] = (int64_t)CAT->getSize().getZExtValue();
		}
		setLoc(G, V->getLocation());
		G["def"] = V->isThisDeclarationADefinition() != VarDecl::DeclarationOnly ? 1 : 0;
		if(Encl)
			G["func"] = Encl->getNameAsString();
		if(V->hasInit() && V->isThisDeclarationADefinition() == VarDecl::Definition) {
			FnState FS;
			int Root = dumpStmt(FS, V->getInit());
			G["init_root"] = Root;
			G["init_nodes"] = std::move(FS.Nodes);
		}
		return std::move(G);
	}
};

class Visitor : public RecursiveASTVisitor<Visitor> {
      public:
	Visitor(Dumper &D) : D(D) {}
	Dumper &D;
	json::Array Functions, Records, Enums, Globals;
	const FunctionDecl *CurFn = nullptr;
	std::set<const Decl *> Seen;

	bool shouldVisitImplicitCode() const { return false; }

	bool TraverseFunctionDecl(FunctionDecl *FD)
	{
		const FunctionDecl *Saved = CurFn;
		CurFn = FD;
		bool R = RecursiveASTVisitor<Visitor>::TraverseFunctionDecl(FD);
		CurFn = Saved;
		return R;
	}

	bool VisitFunctionDecl(FunctionDecl *FD)
	{
		if(!FD->doesThisDeclarationHaveABody() || !D.inRepo(FD->getLocation()))
			return true;
		if(!Seen.insert(FD->getCanonicalDecl()).second)
			return true;
		Functions.push_back(D.dumpFunction(FD));
		return true;
	}

	bool VisitRecordDecl(RecordDecl *RD)
	{
		if(!RD->isCompleteDefinition() || RD->isInvalidDecl() || !D.inRepo(RD->getLocation()))
			return true;
		if(RD->getNameAsString().empty())
			return true;
		if(!Seen.insert(RD->getCanonicalDecl()).second)
			return true;
		Records.push_back(D.dumpRecord(RD));
		return true;
	}

	bool VisitEnumDecl(EnumDecl *ED)
	{
		if(!ED->isCompleteDefinition() || !D.inRepo(ED->getLocation()))
			return true;
		json::Object E;
		E["name"] = ED->getNameAsString();
		D.setLoc(E, ED->getLocation());
		E["size"] = (int64_t)D.Ctx.getTypeSizeInChars(D.Ctx.getTypeDeclType(ED)).getQuantity();
		json::Array Cs;
		for(const EnumConstantDecl *C : ED->enumerators()) {
			json::Object JC;
			JC["name"] = C->getNameAsString();
			JC["val"] = (int64_t)C->getInitVal().getExtValue();
			Cs.push_back(std::move(JC));
		}
		E["consts"] = std::move(Cs);
		Enums.push_back(std::move(E));
		return true;
	}

	bool VisitVarDecl(VarDecl *V)
	{
		if(isa<ParmVarDecl>(V) || !D.inRepo(V->getLocation()))
			return true;
		if(V->isLocalVarDecl() && !V->isStaticLocal())
			return true;
		Globals.push_back(D.dumpGlobal(V, V->isStaticLocal() ? CurFn : nullptr));
		return true;
	}
};

class Consumer : public ASTConsumer {
      public:
	void HandleTranslationUnit(ASTContext &Ctx) override
	{
		Dumper D(Ctx);
		Visitor V(D);
		V.TraverseDecl(Ctx.getTranslationUnitDecl());
		json::Object Out;
		SourceManager &SM = Ctx.getSourceManager();
		if(const FileEntry *FE = SM.getFileEntryForID(SM.getMainFileID())) {
			std::string S = FE->getName().str();
			if(StringRef(S).startswith(RepoRoot))
				S = S.substr(RepoRoot.size());
			while(!S.empty() && S[0] == '/')
				S = S.substr(1);
			Out["unit"] = S;
		}
		Out["config"] = ConfigName.getValue();
		Out["functions"] = std::move(V.Functions);
		Out["records"] = std::move(V.Records);
		Out["enums"] = std::move(V.Enums);
		Out["globals"] = std::move(V.Globals);
		Out["files"] = std::move(D.Files);
		Out["errors"] = (int64_t)Ctx.getDiagnostics().getNumErrors();
		{
			// every repository file this unit includes (used to re-analyse only what an edit can influence)
			json::Array Deps;
			std::set<std::string> SeenDeps;
			for(auto It = SM.fileinfo_begin(); It != SM.fileinfo_end(); ++It) {
				std::string N = It->first->getName().str();
				if(!StringRef(N).startswith(RepoRoot))
					continue;
				N = N.substr(RepoRoot.size());
				while(!N.empty() && N[0] == '/')
					N = N.substr(1);
				size_t p;
				while((p = N.find("/./")) != std::string::npos)
					N.erase(p, 2);
				if(SeenDeps.insert(N).second)
					Deps.push_back(N);
			}
			Out["deps"] = std::move(Deps);
		}
		std::error_code EC;
		llvm::raw_fd_ostream OS(OutFile, EC);
		if(EC) {
			llvm::errs() << "rsfacts: cannot write " << OutFile << ": " << EC.message() << "\n";
			exit(3);
		}
		OS << json::Value(std::move(Out)) << "\n";
	}
};

class Action : public ASTFrontendAction {
      public:
	std::unique_ptr<ASTConsumer> CreateASTConsumer(CompilerInstance &, StringRef) override
	{
		return std::make_unique<Consumer>();
	}
};

} // namespace

int main(int argc, const char **argv)
{
	auto Exp = CommonOptionsParser::create(argc, argv, Cat);
	if(!Exp) {
		llvm::errs() << Exp.takeError();
		return 2;
	}
	ClangTool Tool(Exp->getCompilations(), Exp->getSourcePathList());
	return Tool.run(newFrontendActionFactory<Action>().get());
}
