#!/usr/bin/env python3
"""Candidate sweep: for every *.diff in a directory, build a scratch copy of /repo with it applied and run ALL 20 property
modules on it (as-built configuration); print which rule instances report it.  /repo itself is not touched.
usage: msweep.py <dir-with-diffs> [-j N]"""
import glob, importlib, os, shutil, subprocess, sys
sys.path.insert(0, os.path.dirname(os.path.dirname(os.path.abspath(__file__))))
from multiprocessing import Pool
from rsv import facts, selfcheck, report

PROPS = ["C%02d" % i for i in range(1, 21)]


CONFIGS = ("asbuilt", "debug") if "--debug" in sys.argv else ("asbuilt",)


def one(patch):
    tmp, dst = selfcheck.scratch_copy()
    try:
        p = subprocess.run(["patch", "-p1", "--no-backup-if-mismatch", "-s", "-f", "-d", dst, "-i", os.path.abspath(patch)], stdout=subprocess.PIPE, stderr=subprocess.STDOUT, text=True)
        if p.returncode != 0:
            return patch, "PATCH-FAILS " + p.stdout.strip()[:120], []
        d, _ = facts.build_facts(CONFIGS)
        base = (os.path.join(d, "cdb"), facts.REPO)
        changed = selfcheck.changed_files(patch)
        hits = []
        try:
            d2, units = facts.build_facts(CONFIGS, repo=dst, cache_root=os.path.join(tmp, "facts"), cdb_from=base, reuse=(os.path.dirname(base[0]), changed))
        except facts.AnalysisBroken as e:
            return patch, "DOES-NOT-COMPILE " + str(e)[:160], []
        progs = {c: facts.Program(d2, c) for c in CONFIGS}
        for prop in PROPS:
            mod = importlib.import_module("rsv.props." + prop)
            ck = report.Checker(prop, "quick", 0)
            try:
                mod.run(ck, progs)
            except facts.AnalysisBroken as e:
                hits.append("%s BROKEN %s" % (prop, str(e)[:80]))
                continue
            except Exception as e:
                hits.append("%s CRASH %r" % (prop, e))
                continue
            for o in ck.obs:
                if o["verdict"] == "violated":
                    hits.append("%s %s:%s%s" % (prop, o["rule"], o["instance"], "" if o.get("config", "asbuilt") == "asbuilt" else " [debug]"))
            if getattr(ck, "broken_notes", None):
                hits.append("%s BROKEN-FLOOR %s" % (prop, "; ".join(ck.broken_notes)[:100]))
        return patch, "ok", hits
    finally:
        shutil.rmtree(tmp, ignore_errors=True)


if __name__ == "__main__":
    d = sys.argv[1]
    j = int(sys.argv[sys.argv.index("-j") + 1]) if "-j" in sys.argv else 6
    facts.build_facts(CONFIGS)
    files = sorted(glob.glob(os.path.join(d, "*.diff")))
    with Pool(j) as pool:
        for patch, status, hits in pool.imap(one, files):
            name = os.path.basename(patch)
            if status != "ok":
                print("%-44s %s" % (name, status))
            elif not hits:
                print("%-44s -- NOT CAUGHT --" % name)
            else:
                print("%-44s %s" % (name, " | ".join(sorted(set(hits)))[:300]))
