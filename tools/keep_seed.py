#!/usr/bin/env python3
"""Keep a confirmed seeded change: keep_seed.py <Cxx> <k> --change "..." --needs "..." [--first "C03 C04"] [--strengthening "..."] [--why-missed "..."]
Copies patch, demo and notes from /tmp/seed/<Cxx>/out/change<k> to /verif/seeded/<Cxx>-<k>/, runs every check against it, writes meta.json."""
import argparse, json, os, shutil, subprocess, sys
V = os.path.dirname(os.path.dirname(os.path.abspath(__file__)))
ap = argparse.ArgumentParser()
ap.add_argument("prop"); ap.add_argument("k")
ap.add_argument("--change", required=True); ap.add_argument("--needs", required=True)
ap.add_argument("--first", default=None); ap.add_argument("--strengthening", default="—"); ap.add_argument("--why-missed", default=None)
ap.add_argument("--unconfirmed-ok", action="store_true")
a = ap.parse_args()
ROOT = os.environ.get("SEED_ROOT", "/tmp/seed")
TAG = os.environ.get("SEED_TAG", "")      # e.g. "r2-" for the second round of seeding agents
src = "%s/%s/out/change%s" % (ROOT, a.prop, a.k)
log = os.path.join(src, "confirm.log")
conf = open(log).read() if os.path.exists(log) else ""
if "RESULT: CONFIRMED" not in conf and not a.unconfirmed_ok:
    sys.exit("not confirmed: run tools/confirm_seed.sh %s %s first\n%s" % (a.prop, a.k, conf[-600:]))
dst = os.path.join(V, "seeded", "%s-%s%s" % (a.prop, TAG, a.k))
shutil.rmtree(dst, ignore_errors=True)
os.makedirs(dst)
shutil.copy(os.path.join(src, "patch.diff"), dst)
if os.path.isdir(os.path.join(src, "demo")):
    shutil.copytree(os.path.join(src, "demo"), os.path.join(dst, "demo"), ignore=shutil.ignore_patterns("_build*", "*.o", "*.bin", "a.out"))
for f in ("notes.md", "confirm.log"):
    if os.path.exists(os.path.join(src, f)):
        shutil.copy(os.path.join(src, f), dst)
# drop binaries the agent may have left in demo/
for root, _, files in os.walk(dst):
    for f in files:
        p = os.path.join(root, f)
        if os.path.getsize(p) > 400000:
            os.unlink(p)
r = subprocess.run([os.path.join(V, "tools", "run_seed.py"), os.path.join(dst, "patch.diff")], capture_output=True, text=True)
caught = []
for l in r.stdout.splitlines():
    if l.startswith("CAUGHT-BY:"):
        caught = [x for x in l.split(":", 1)[1].split() if x != "-"]
report = [l.strip() for l in r.stdout.splitlines() if "instance" in l]
meta = {"id": "%s-%s%s" % (a.prop, TAG, a.k), "property": a.prop, "change": a.change, "needs": a.needs,
        "what_i_ran": ["tools/confirm_seed.sh %s %s  (scratch worktree %s/%s: suite with the change, demo with, demo without)" % (a.prop, a.k, ROOT, a.prop),
                       "tools/run_seed.py seeded/%s-%s%s/patch.diff  (git -C /repo apply; ./check <all> --tier quick; git -C /repo checkout -- .)" % (a.prop, TAG, a.k)],
        "confirmation": [l for l in conf.splitlines() if l.startswith(("SUITE", "DEMO", "RESULT")) or "re-run" in l],
        "caught_first": (a.first.split() if a.first is not None else caught), "caught_now": caught, "reports": report[:6],
        "strengthening": a.strengthening}
if a.why_missed:
    meta["why_missed"] = a.why_missed
json.dump(meta, open(os.path.join(dst, "meta.json"), "w"), indent=1)
print(meta["id"], "caught now by", caught or "NOTHING")
