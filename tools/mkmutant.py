#!/usr/bin/env python3
"""Create a self-validation mutant.  usage: mkmutant.py <prop> <name> <M|B> <expect-key-prefix|-> [--configs asbuilt,debug] < edits.json
edits.json = [[file, old, new], ...]  (each `old` must occur exactly once in the file of /repo's current tree)."""
import json, os, subprocess, sys, tempfile, shutil
VERIF = os.path.dirname(os.path.dirname(os.path.abspath(__file__)))
prop, name, kind, expect = sys.argv[1:5]
configs = ["asbuilt"]
if "--configs" in sys.argv:
    configs = sys.argv[sys.argv.index("--configs") + 1].split(",")
edits = json.load(sys.stdin)
tmp = tempfile.mkdtemp(prefix="mkmut-")
try:
    out = []
    byfile = {}
    for f, old, new in edits:
        byfile.setdefault(f, []).append((old, new))
    for f, eds in byfile.items():
        src = open(os.path.join("/repo", f)).read()
        dst = src
        for old, new in eds:
            if dst.count(old) != 1:
                sys.exit("edit target occurs %d times in %s: %r" % (dst.count(old), f, old[:60]))
            dst = dst.replace(old, new)
        a = os.path.join(tmp, "a", f); b = os.path.join(tmp, "b", f)
        os.makedirs(os.path.dirname(a), exist_ok=True); os.makedirs(os.path.dirname(b), exist_ok=True)
        open(a, "w").write(src); open(b, "w").write(dst)
        p = subprocess.run(["diff", "-u", "a/" + f, "b/" + f], cwd=tmp, stdout=subprocess.PIPE, text=True)
        out.append(p.stdout)
    rel = "%s/%s.diff" % (prop, name)
    os.makedirs(os.path.join(VERIF, "mutants", prop), exist_ok=True)
    open(os.path.join(VERIF, "mutants", rel), "w").write("".join(out))
    cat = os.path.join(VERIF, "mutants", "catalog.json")
    c = json.load(open(cat)) if os.path.exists(cat) else []
    c = [e for e in c if e["file"] != rel]
    e = {"file": rel, "property": prop, "kind": kind, "configs": configs}
    if kind == "M":
        e["expect"] = expect
    c.append(e)
    c.sort(key=lambda e: e["file"])
    json.dump(c, open(cat, "w"), indent=1)
    print("wrote", rel)
finally:
    shutil.rmtree(tmp)
