#!/usr/bin/env python3
# run with python3-vt (has jsonschema): validates MANIFEST.json and every evidence file
import json, glob, jsonschema, sys
jsonschema.validate(json.load(open('/verif/MANIFEST.json')), json.load(open('/root/.vp/MANIFEST.schema.json')))
es = json.load(open('/root/.vp/EVIDENCE.schema.json'))
n = 0
for f in sorted(glob.glob('/verif/evidence/C*.json')):
    jsonschema.validate(json.load(open(f)), es); n += 1
print("MANIFEST ok; %d evidence files ok" % n)
