#!/usr/bin/env python3
"""Fill the generated part of DESIGN.md (section 9) from mutants/catalog.json and seeded/*/meta.json."""
import glob, json, os, re
V = os.path.dirname(os.path.dirname(os.path.abspath(__file__)))
cat = json.load(open(os.path.join(V, "mutants", "catalog.json")))
out = []
out.append("### 9.1 Self-validation mutants (%d; `M` must be reported on the named rule instance, `B` must stay silent)\n" % len(cat))
out.append("| property | M mutants (expected report) | B mutants |")
out.append("|----------|------------------------------|-----------|")
props = sorted({e["property"] for e in cat})
for p in props:
    ms = ["`%s` → %s" % (os.path.basename(e["file"])[:-5], e.get("expect", "")) for e in cat if e["property"] == p and e["kind"] == "M"]
    bs = ["`%s`" % os.path.basename(e["file"])[:-5] for e in cat if e["property"] == p and e["kind"] == "B"]
    out.append("| %s | %s | %s |" % (p, "; ".join(ms), "; ".join(bs) or "—"))
out.append("")
seeds = []
for m in sorted(glob.glob(os.path.join(V, "seeded", "*", "meta.json"))):
    seeds.append(json.load(open(m)))
out.append("### 9.2 Independently seeded changes (%d kept)\n" % len(seeds))
out.append("Each was written by a fresh sub-agent that saw only the property text and its own scratch worktree (nothing from /verif), then "
           "confirmed by me in a scratch worktree (suite passes with the change; demonstration fails with it and passes without it), then run "
           "against every check with `tools/run_seed.py`. *first run* = result before any strengthening; *now* = with the committed checks. Seven rounds of agents, later rounds told which ideas had already been used (round 4 per property): round 1: 63 seeds, 43 reported at the first run; round 2: 80 seeds, 64 at the first run; round 3 (all 20 properties, three waves): 72 seeds written, 71 kept (one failed the suite in my confirmation), 61 at the first run; round 4 (the seven properties with misses in round 3): 16 seeds, 8 at the first run; round 5 (seven other properties): 12 seeds, all 12 at the first run (with only a per-property exclusion list the agents drifted back to ideas that other properties' agents had had before); round 6 (eight properties, every agent given the titles of ALL 242 earlier changes): 7 seeds (three agents found nothing new that the suite does not already catch), 6 at the first run; round 7 (a later session, 14-minute agents on five of the least-seeded properties): 4 seeds kept (C07, C09, C15, C18), all 4 reported at the first run (`C09-r7-1`, a thread-local variate cache in Normal(), was reported by C18.5 only and is now also decided under C09 as C09.5). The fifth agent (C17) rewrote the barrier so that the last arriver recycles the other counter with a plain store after its spin; the checks answered `inconclusive` (an unknown algorithm), which led to the reset-hazard replay of C17.7; in my confirmation the change then hung `test_correctness_parallel` (gdb: both workers spinning in `sync_thread_barrier` - the lost arrival the replay predicts), so it does not pass the existing suite and is kept as the catalog mutant `last-arriver-recycles-other-counter`, not as a seed. A second wave of three 9-minute agents (C03, C10, C13) only repeated earlier ideas (fossil scan `<=` GVT twice, comparator limited to the inline payload bytes), all reported at the first run by C03/C04/C13 and C16; they were not confirmed or kept. Every miss became a rule (table in section 5) except `C08-r3-1`, which no check reports and which is explained in section 8. The falling first-run rate of round 4 is the honest measure of what one more round of genuinely new ideas still finds: agents pushed away from every earlier idea reach bookkeeping that no rule looks at yet about half of the time.\n")
out.append("| seed | breaks | change | needs, to manifest | caught at first run by | caught now by | strengthening it caused |")
out.append("|------|--------|--------|--------------------|------------------------|---------------|--------------------------|")
for s in seeds:
    out.append("| %s | %s | %s | %s | %s | %s | %s |" % (s["id"], s["property"], s["change"].replace("|", "\\|"), s["needs"].replace("|", "\\|"), " ".join(s.get("caught_first", [])) or "**missed**",
                                                 " ".join(s.get("caught_now", [])) or "**missed**", s.get("strengthening", "—")))
out.append("")
missed = [s for s in seeds if not s.get("caught_now")]
if missed:
    out.append("Seeds still missed, with the reason: " + "; ".join("%s (%s)" % (s["id"], s.get("why_missed", "?")) for s in missed) + "\n")
p = os.path.join(V, "DESIGN.md")
txt = open(p).read()
txt = re.sub(r"<!-- BEGIN GENERATED -->.*<!-- END GENERATED -->", "<!-- BEGIN GENERATED -->\n" + "\n".join(out) + "\n<!-- END GENERATED -->", txt, flags=re.S)
open(p, "w").write(txt)
print("mutants:", len(cat), "seeds:", len(seeds))
