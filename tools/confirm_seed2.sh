#!/bin/bash
# usage: [SEED_ROOT=/tmp/seed2] confirm_seed.sh <Cxx> <k>   — independent confirmation of a seeded change in the scratch worktree $SEED_ROOT/<Cxx> (default /tmp/seed)
# (a) test suite passes with the change, (b) demo fails with it, (c) demo passes without it. Writes out/change<k>/confirm.log
id=$1; k=$2; wt=${SEED_ROOT:-/tmp/seed}/$id; out=$wt/out/change$k; log=$out/confirm.log
cd $wt || exit 2
git checkout -q -- src test 2>/dev/null
: > $log
echo "== confirm $id change$k $(date -u +%FT%TZ)" >> $log
git apply $out/patch.diff || { echo "RESULT: patch does not apply" >> $log; exit 1; }
rm -rf _build_confirm
cmake -G Ninja -S . -B _build_confirm -DCMAKE_BUILD_TYPE=RelWithDebInfo -DCMAKE_C_FLAGS=-Wno-error >/dev/null 2>&1 && cmake --build _build_confirm >/dev/null 2>&1
echo "build rc=$?" >> $log
# the suite; test_sync spins on all cores and is sensitive to machine load: retry it alone if it was the only failure
ctest --test-dir _build_confirm -j4 --timeout 900 > $out/confirm.ctest.txt 2>&1
tail -4 $out/confirm.ctest.txt >> $log
failed=$(grep -E "^\s*[0-9]+ - " $out/confirm.ctest.txt | awk '{print $3}' | sort -u | tr '\n' ' ')
suite=pass
still=""
for t in $failed; do
  # the per-test 60 s limit of the suite fires under machine load: a test that only timed out is re-run directly, without that limit
  if grep -qE "^\s*[0-9]+ - $t \(Timeout\)" $out/confirm.ctest.txt && [ -x _build_confirm/test/$t ]; then
     ok=0
     for i in 1 2; do if ( cd _build_confirm/test && flock /tmp/rsv-confirm-$t.lock timeout 3000 ./$t > /dev/null 2>&1 ); then ok=1; break; fi; done
     echo "$t timed out under ctest; direct re-run: $([ $ok = 1 ] && echo pass || echo FAIL)" >> $log
     [ $ok = 1 ] || still="$still $t"
  else
     still="$still $t"
  fi
done
[ -z "$still" ] || suite=fail
failed="$still"
echo "SUITE-WITH-CHANGE: $suite (failed: ${failed:-none})" >> $log
( cd $wt && timeout 1500 bash $out/demo/run.sh ) > $out/confirm.demo_with.txt 2>&1; rcw=$?
echo "DEMO-WITH-CHANGE rc=$rcw" >> $log
git checkout -q -- src test
( cd $wt && timeout 1500 bash $out/demo/run.sh ) > $out/confirm.demo_without.txt 2>&1; rco=$?
echo "DEMO-WITHOUT-CHANGE rc=$rco" >> $log
rm -rf _build_confirm _build_demo _build*
if [ "$suite" = pass ] && [ $rcw -ne 0 ] && [ $rco -eq 0 ]; then echo "RESULT: CONFIRMED" >> $log; else echo "RESULT: NOT-CONFIRMED" >> $log; fi
tail -1 $log
