#!/usr/bin/env python3
"""Convenience wrapper over mkmutant.py: python source on stdin defining MUTANTS = [(prop, name, kind, expect, [(file, old, new), ...]), ...]."""
import json, subprocess, sys, os
ns = {}
exec(sys.stdin.read(), ns)
for prop, name, kind, expect, edits in ns["MUTANTS"]:
    subprocess.run([sys.executable, os.path.join(os.path.dirname(os.path.abspath(__file__)), "mkmutant.py"), prop, name, kind, expect or "-"], input=json.dumps([list(e) for e in edits]), text=True, check=True)
