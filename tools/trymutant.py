#!/usr/bin/env python3
"""Debug aid: run a property's rules on /repo + one mutant patch and print non-holding obligations.
usage: trymutant.py <prop> <patchfile>  [--all]"""
import importlib, os, sys, shutil, subprocess
sys.path.insert(0, os.path.dirname(os.path.dirname(os.path.abspath(__file__))))
from rsv import facts, selfcheck
prop, patch = sys.argv[1], sys.argv[2]
mod = importlib.import_module("rsv.props." + prop)
tmp, dst = selfcheck.scratch_copy()
try:
    p = subprocess.run(["patch", "-p1", "-s", "-f", "-d", dst, "-i", os.path.abspath(patch)], stdout=subprocess.PIPE, stderr=subprocess.STDOUT, text=True)
    print("patch rc", p.returncode, p.stdout)
    d, _ = facts.build_facts(("asbuilt",))
    cfgs = ("asbuilt", "debug") if "--debug" in sys.argv else ("asbuilt",)
    ck = selfcheck.analyse_tree(mod, prop, dst, tmp, cfgs, (os.path.join(d, "cdb"), facts.REPO), selfcheck.changed_files(patch))
    for o in ck.obs:
        if o["verdict"] != "holds" or "--all" in sys.argv:
            print(o["verdict"], o["rule"], o["instance"], o["where"].replace(dst, ""), "|", o["detail"][:300])
except facts.AnalysisBroken as e:
    print("BROKEN:", e)
finally:
    shutil.rmtree(tmp, ignore_errors=True)
