#!/usr/bin/env python3
"""Debug aid: print every obligation of a property on /repo's current tree.  usage: showobs.py Cxx [rule-prefix] [--debug]"""
import importlib, os, sys
sys.path.insert(0, os.path.dirname(os.path.dirname(os.path.abspath(__file__))))
from rsv import facts
from rsv.report import Checker
prop = sys.argv[1]
pref = sys.argv[2] if len(sys.argv) > 2 and not sys.argv[2].startswith("--") else ""
cfgs = ("asbuilt", "debug") if "--debug" in sys.argv else ("asbuilt",)
facts.build_facts(cfgs)
progs = {c: facts.load(c) for c in cfgs}
ck = Checker(prop)
importlib.import_module("rsv.props." + prop).run(ck, progs)
for o in ck.obs:
    if o["rule"].startswith(pref):
        print(o["verdict"], o["rule"], o["instance"], o["where"], "|", o["detail"][:260])
