#!/usr/bin/env python3
"""Keep confirmed seeds in bulk: reads the change title and the 'what is needed' paragraph from the agent's notes.md.
usage: keep_auto.py <table.json>   table = [[prop, k, first ("-" = nothing, "" = same as now), strengthening, why_missed], ...]
Waits for the confirmation log of each entry (up to --wait seconds) and skips entries that were not confirmed."""
import json, os, re, subprocess, sys, time
V = os.path.dirname(os.path.dirname(os.path.abspath(__file__)))
table = json.load(open(sys.argv[1]))
wait = int(sys.argv[sys.argv.index("--wait") + 1]) if "--wait" in sys.argv else 0


def para(text, pat):
    m = re.search(r"^##+\s*[^\n]*(%s)[^\n]*\n(.*?)(?=^##|\Z)" % pat, text, re.S | re.M | re.I)
    if not m:
        return None
    body = " ".join(l.strip() for l in m.group(2).strip().split("\n\n")[0].splitlines())
    return body[:420]


for prop, k, first, strengthening, why in table:
    src = "%s/%s/out/change%s" % (os.environ.get("SEED_ROOT", "/tmp/seed"), prop, k)
    log = os.path.join(src, "confirm.log")
    t0 = time.time()
    while wait and not (os.path.exists(log) and "RESULT:" in open(log).read()) and time.time() - t0 < wait:
        time.sleep(30)
    if os.path.exists(os.path.join(V, "seeded", "%s-%s%s" % (prop, os.environ.get("SEED_TAG", ""), k), "meta.json")) and "--again" not in sys.argv:
        continue        # already kept
    if not (os.path.exists(log) and "RESULT: CONFIRMED" in open(log).read()):
        print("SKIP %s-%s: not confirmed" % (prop, k), flush=True)
        continue
    notes = open(os.path.join(src, "notes.md")).read() if os.path.exists(os.path.join(src, "notes.md")) else ""
    title = notes.splitlines()[0] if notes else ""
    title = re.sub(r"^#\s*", "", title)
    title = title.split("—", 1)[1].strip() if "—" in title else title
    needs = para(notes, "needed|manifest") or "see notes.md"
    cmd = [os.path.join(V, "tools", "keep_seed.py"), prop, str(k), "--change", title or "see notes.md", "--needs", needs]
    if first == "-":
        cmd += ["--first", ""]
    elif first:
        cmd += ["--first", first]
    if strengthening:
        cmd += ["--strengthening", strengthening]
    if why:
        cmd += ["--why-missed", why]
    r = subprocess.run(cmd, capture_output=True, text=True)
    print((r.stdout + r.stderr).strip()[-300:], flush=True)
