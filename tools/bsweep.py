#!/usr/bin/env python3
"""Robustness sweep: apply each behaviour-preserving edit of mutants/ALL to /repo, run every check (quick), undo.
Any VIOLATION is a false alarm of the machinery; exit 2 (analysis refuses) is reported too."""
import glob, os, subprocess, sys
V = os.path.dirname(os.path.dirname(os.path.abspath(__file__)))
bad = 0
for p in sorted(glob.glob(os.path.join(V, "mutants", "ALL", "*.diff"))):
    r = subprocess.run([os.path.join(V, "tools", "run_seed.py"), p], capture_output=True, text=True)
    lines = [l for l in r.stdout.splitlines() if l.startswith(("CAUGHT-BY", "ANALYSIS-BROKEN")) or "instance" in l]
    caught = [l for l in lines if l.startswith("CAUGHT-BY") and not l.strip().endswith("-")]
    status = "FALSE-ALARM" if caught else ("refused" if any(l.startswith("ANALYSIS-BROKEN") for l in lines) else "silent")
    if status != "silent":
        bad += 1
    print("%-40s %s %s" % (os.path.basename(p), status, " | ".join(l.strip()[:160] for l in lines if not l.strip().endswith("-"))))
    if r.returncode and "does not apply" in (r.stderr + r.stdout):
        print("   (patch does not apply)")
sys.exit(1 if bad else 0)
