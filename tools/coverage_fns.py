#!/usr/bin/env python3
"""Which functions of src/ have no obligation located in them (by any of the 20 checks)?  A reading aid, not a check."""
import importlib, os, sys, re
sys.path.insert(0, os.path.dirname(os.path.dirname(os.path.abspath(__file__))))
from rsv import facts
from rsv.report import Checker
facts.build_facts(("asbuilt",))
P = facts.load("asbuilt")
spans = []
for f in P.all_functions():
    if f.file.startswith("src/"):
        lines = [n.line for n in f.walk() if n.line]
        if lines:
            spans.append((f.file, min(lines), max(lines), f.name))
hit = {}
for i in range(1, 21):
    prop = "C%02d" % i
    ck = Checker(prop)
    importlib.import_module("rsv.props." + prop).run(ck, {"asbuilt": P})
    for o in ck.obs:
        m = re.match(r"(src/[^:]+):(\d+)", o["where"] or "")
        if not m:
            continue
        for file, lo, hi, name in spans:
            if file == m.group(1) and lo <= int(m.group(2)) <= hi:
                hit.setdefault((file, name), set()).add(prop)
for file, lo, hi, name in sorted(spans):
    print("%-34s %-40s %4d lines  %s" % (file, name, hi - lo + 1, " ".join(sorted(hit.get((file, name), []))) or "-- none --"))
