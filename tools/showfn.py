#!/usr/bin/env python3
"""Debug aid: print the dumped AST / CFG of a function.  usage: showfn.py <function> [--cfg] [--config debug]"""
import os, sys
sys.path.insert(0, os.path.dirname(os.path.dirname(os.path.abspath(__file__))))
from rsv import facts, expr as X
cfgmode = "--cfg" in sys.argv
config = "debug" if "debug" in sys.argv else "asbuilt"
P = facts.load(config)
for f in P.functions.get(sys.argv[1], []):
    print(f, f.unit)
    if cfgmode:
        g = f.cfg
        for b in sorted(g.blocks.values(), key=lambda b: -b.id):
            print("B%d%s%s succs=%s term=%s label=%s" % (b.id, " ENTRY" if b.id == g.entry else "", " EXIT" if b.id == g.exit else "", b.succs, b.termk, b.label))
            for e in b.elems:
                if e.k in ("ImplicitCastExpr", "DeclRefExpr", "IntegerLiteral", "ParenExpr", "MemberExpr"): continue
                print("    #%d %s L%d %s %s" % (e.id, e.k, e.line, X.show(e)[:100], e.macros or ""))
            if b.cond is not None: print("    cond: #%d %s" % (b.cond.id, X.show(b.cond)[:100]))
    else:
        def rec(n, ind):
            extra = {k: v for k, v in n.d.items() if k not in ("k", "c", "f", "l", "t", "ti", "lv", "did", "tp", "tf")}
            print("%s#%d %s L%d %s" % ("  " * ind, n.id, n.k, n.line, extra))
            for c in n.children: rec(c, ind + 1)
        rec(f.root, 0)
