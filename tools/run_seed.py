#!/usr/bin/env python3
"""Apply a seeded change to /repo, run every claimed check (quick tier), undo the change.
usage: run_seed.py <patch.diff> [prop ...]      prints which checks report a violation."""
import json, os, subprocess, sys
VERIF = os.path.dirname(os.path.dirname(os.path.abspath(__file__)))
patch = os.path.abspath(sys.argv[1])
props = sys.argv[2:] or [c["property_id"] for c in json.load(open(os.path.join(VERIF, "MANIFEST.json")))["checks"]]
st = subprocess.run(["git", "-C", "/repo", "status", "--porcelain", "--untracked-files=no"], capture_output=True, text=True).stdout.strip()
if st:
    sys.exit("refusing: /repo has local modifications:\n" + st)
r = subprocess.run(["git", "-C", "/repo", "apply", patch], capture_output=True, text=True)
if r.returncode:
    sys.exit("patch does not apply: " + r.stderr)
res = {}
try:
    from concurrent.futures import ThreadPoolExecutor

    def one(p):
        q = subprocess.run([os.path.join(VERIF, "check"), p, "--tier", "quick"], capture_output=True, text=True, cwd=VERIF)
        lines = [l for l in q.stdout.splitlines() if l.startswith(("VIOLATION", "  rule", "  instance", "  ")) and "conda" not in l]
        return p, (q.returncode, lines)
    # the first check builds the facts of the patched tree; the others then share them
    if props:
        p0, r0 = one(props[0])
        res[p0] = r0
    with ThreadPoolExecutor(int(os.environ.get("RUN_SEED_JOBS", "8"))) as ex:
        for p, r in ex.map(one, props[1:]):
            res[p] = r
finally:
    subprocess.run(["git", "-C", "/repo", "checkout", "--", "."], check=True)
    # evidence files must describe the unchanged tree: re-run the checks that fired
    again = [p for p, (rc, _) in res.items() if rc != 0]
    from concurrent.futures import ThreadPoolExecutor as _T
    with _T(8) as ex:
        list(ex.map(lambda p: subprocess.run([os.path.join(VERIF, "check"), p, "--tier", "quick"], capture_output=True, cwd=VERIF), again))
caught = [p for p in props if res.get(p, (0,))[0] == 1]
broken = [p for p in props if res.get(p, (0,))[0] == 2]
print("CAUGHT-BY:", " ".join(caught) or "-")
if broken:
    print("ANALYSIS-BROKEN:", " ".join(broken))
for p in caught:
    for l in res[p][1][:8]:
        print("   ", p, l[:260])
