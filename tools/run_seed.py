#!/usr/bin/env python3
"""Apply a seeded change to /repo, run every claimed check (quick tier), undo the change.
usage: run_seed.py <patch.diff> [prop ...]      prints which checks report a violation."""
import json, os, subprocess, sys
VERIF = os.path.dirname(os.path.dirname(os.path.abspath(__file__)))
patch = os.path.abspath(sys.argv[1])
props = sys.argv[2:] or [c["property_id"] for c in json.load(open(os.path.join(VERIF, "MANIFEST.json")))["checks"]]
st = subprocess.run(["git", "-C", "/repo", "status", "--porcelain", "--untracked-files=no"], capture_output=True, text=True).stdout.strip()
if st:
    sys.exit("refusing: /repo has local modifications:\n" + st)
r = subprocess.run(["git", "-C", "/repo", "apply", patch], capture_output=True, text=True)
if r.returncode:
    sys.exit("patch does not apply: " + r.stderr)
res = {}
try:
    for p in props:
        q = subprocess.run([os.path.join(VERIF, "check"), p, "--tier", "quick"], capture_output=True, text=True, cwd=VERIF)
        lines = [l for l in q.stdout.splitlines() if l.startswith(("VIOLATION", "  rule", "  instance", "  ")) and "conda" not in l]
        res[p] = (q.returncode, lines)
finally:
    subprocess.run(["git", "-C", "/repo", "checkout", "--", "."], check=True)
    # evidence files must describe the unchanged tree: re-run the checks that fired
    for p, (rc, _) in res.items():
        if rc != 0:
            subprocess.run([os.path.join(VERIF, "check"), p, "--tier", "quick"], capture_output=True, cwd=VERIF)
caught = [p for p, (rc, _) in res.items() if rc == 1]
broken = [p for p, (rc, _) in res.items() if rc == 2]
print("CAUGHT-BY:", " ".join(caught) or "-")
if broken:
    print("ANALYSIS-BROKEN:", " ".join(broken))
for p in caught:
    for l in res[p][1][:8]:
        print("   ", p, l[:260])
