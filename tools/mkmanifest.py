#!/usr/bin/env python3
"""Regenerate /verif/MANIFEST.json from rsv/manifest_data.py (claimed properties) — every property of
properties.jsonl that has no entry there is listed under not_applicable with its reason."""
import json, os, sys
VERIF = os.path.dirname(os.path.dirname(os.path.abspath(__file__)))
sys.path.insert(0, VERIF)
from rsv import manifest_data as M
props = [json.loads(l)["id"] for l in open(os.path.join(VERIF, "properties.jsonl"))]
checks, na = [], []
for p in props:
    if p in M.CLAIMED:
        c = M.CLAIMED[p]
        checks.append({
            "property_id": p,
            "quick_cmd": "./check %s --tier quick" % p,
            "thorough_cmd": "./check %s --tier thorough" % p,
            "evidence_file": "/verif/evidence/%s.json" % p,
            "replay_cmd_template": "./check %s --replay {path}" % p,
            "engine": "rsv",
            "level_claimed": {"category": "other", "text": c["text"], "design_ref": "DESIGN.md section 5, %s" % p},
            "level_note": c["note"],
            "technique": c["technique"],
        })
    else:
        na.append({"property_id": p, "reason": M.NOT_APPLICABLE.get(p, "no static rule built yet for this property")})
man = {
    "version": 1,
    "setup_cmd": "./setup.sh",
    "hooks": {"guard": "ROOT_SIM_CORE_VERIF", "enable": "none: the analysis reads the sources as they are; no hook was added to /repo",
              "baseline_off_cmd": "cmake -G Ninja -S /repo -B /repo/_build -DCMAKE_BUILD_TYPE=RelWithDebInfo -DCMAKE_C_FLAGS=-Wno-error && cmake --build /repo/_build && ctest --test-dir /repo/_build -j8 --timeout 900",
              "source_commits": [], "add_only": True},
    "engines": [{"name": "rsv", "path": "/verif/rsv", "serves_properties": sorted(M.CLAIMED),
                 "kind_free_text": "static analysis: libTooling fact dumper (tools/rsfacts.cc: typed AST, clang CFG, record layouts, constant evaluation) + Python rule library (dominance / path rules, typestate, effects, atomic-order floors, comparator and interval recognisers)"}],
    "checks": checks,
    "notes": M.NOTES,
    "not_applicable": na,
}
json.dump(man, open(os.path.join(VERIF, "MANIFEST.json"), "w"), indent=1)
print("claimed:", len(checks), "not_applicable:", len(na))
