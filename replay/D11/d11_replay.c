/* Replay of finding D11 (property C11): after a GVT message count, gvt_node_phase_run() zeroes n_nodes / n_threads + 1 entries of
 * total_sent[MAX_NODES] per thread.  With n_nodes == MAX_NODES (the largest rank count the arrays are sized for) a single thread
 * zeroes MAX_NODES + 1 entries: 4 bytes past the end of the array.
 *
 * Nothing in ROOT-Sim/core is modified.  The program links the real library (built with AddressSanitizer) and replaces, at link time
 * (-Wl,--wrap), only the MPI collectives of distributed/mpi.c by local stand-ins, because 65536 real MPI ranks cannot be started
 * here; the GVT code under test is the library's own.  It then steps one GVT round on one worker thread.
 */
#include <core/core.h>
#include <datatypes/msg_queue.h>
#include <distributed/mpi.h>
#include <gvt/gvt.h>

#include <stdio.h>

void __wrap_mpi_control_msg_broadcast(enum msg_ctrl_code ctrl) { (void)ctrl; gvt_start_processing(); }
void __wrap_mpi_control_msg_send_to(enum msg_ctrl_code ctrl, nid_t dest) { (void)ctrl; (void)dest; gvt_on_done_ctrl_msg(); }
void __wrap_mpi_reduce_sum_scatter(const uint32_t *values, uint32_t *result) { *result = values[nid]; }
bool __wrap_mpi_reduce_sum_scatter_done(void) { return true; }
void __wrap_mpi_reduce_min(simtime_t *node_min_p) { (void)node_min_p; }
bool __wrap_mpi_reduce_min_done(void) { return true; }

int main(void)
{
	n_nodes = MAX_NODES;
	nid = 0;
	rid = 0;
	global_config.n_threads = 1;
	global_config.gvt_period = 0;
	msg_queue_global_init();
	msg_queue_init();
	gvt_global_init();
	for(unsigned i = 0; i < 1000; ++i) {
		simtime_t g = gvt_phase_run();
		if(g != 0.0) {
			printf("one GVT round completed with %d ranks, no invalid access\n", n_nodes);
			return 0;
		}
	}
	printf("round did not complete\n");
	return 2;
}
