#!/bin/bash
# Builds the real library from /repo's current tree with AddressSanitizer in a scratch directory and steps one GVT round with
# n_nodes == MAX_NODES on one thread; exits 1 if the sanitizer reports the write past total_sent[] (the finding), 0 otherwise.
here=$(cd "$(dirname "$0")" && pwd); repo=${REPO:-/repo}
tmp=$(mktemp -d /tmp/d11-replay-XXXXXX); trap 'rm -rf $tmp' EXIT
cmake -G Ninja -S $repo -B $tmp/b -DCMAKE_BUILD_TYPE=RelWithDebInfo "-DCMAKE_C_FLAGS=-Wno-error -fsanitize=address -fno-omit-frame-pointer" >/dev/null 2>&1 || { echo "configure failed"; exit 2; }
cmake --build $tmp/b --target rscore >/dev/null 2>&1 || { echo "build failed"; exit 2; }
W=""; for f in mpi_control_msg_broadcast mpi_control_msg_send_to mpi_reduce_sum_scatter mpi_reduce_sum_scatter_done mpi_reduce_min mpi_reduce_min_done; do W="$W -Wl,--wrap=$f"; done
mpicc -g -O1 -fsanitize=address -I$repo/src $here/d11_replay.c $W $tmp/b/src/librscore.a -lm -lpthread -o $tmp/d11 || { echo "link failed"; exit 2; }
cd $tmp
ASAN_OPTIONS=detect_leaks=0 ./d11 > out.txt 2>&1; rc=$?
if grep -q "global-buffer-overflow" out.txt; then
  echo "D11 reproduced:"; grep -m3 "ERROR: AddressSanitizer\|WRITE of size\|is located" out.txt; grep -m1 "gvt_node_phase_run\|gvt_phase_run" out.txt; exit 1
fi
cat out.txt | tail -3; exit $rc
