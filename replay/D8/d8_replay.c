/* Replay of finding D8 (property C02): two different senders obtain the same remote message identifier.
 * Calls the REAL inline helper gvt_remote_msg_send() of ROOT-Sim/core with the runtime's own globals set to
 * (rank 0, thread MAX_THREADS-1) and (rank 1, thread MAX_THREADS-1); n_threads == MAX_THREADS is accepted by
 * RootsimInit (reducing_p[] has MAX_THREADS entries). Exit 1 when the two identifiers are equal. */
#include <core/core.h>
#include <gvt/gvt.h>
#include <lp/msg.h>
#include <stdio.h>
#include <string.h>

int main(void)
{
	struct lp_msg a, b;
	memset(&a, 0, sizeof(a));
	memset(&b, 0, sizeof(b));
	rid = MAX_THREADS - 1;
	nid = 0;
	gvt_remote_msg_send(&a, 2);
	nid = 1;
	gvt_remote_msg_send(&b, 2);
	/* same destination counter state for both senders (each sender thread has its own remote_msg_seq) */
	b.m_seq = a.m_seq;
	printf("rank 0 thread %d -> id %#x seq %u\nrank 1 thread %d -> id %#x seq %u\n", MAX_THREADS - 1, a.raw_flags, a.m_seq,
	    MAX_THREADS - 1, b.raw_flags, b.m_seq);
	if(a.raw_flags == b.raw_flags) {
		puts("D8 reproduced: distinct senders, identical identifier (anti-message matching compares exactly these two fields)");
		return 1;
	}
	puts("identifiers differ");
	return 0;
}
