/* Replay of finding D9 (property C19): CountDirections() against the real fixed-direction answers of GetReceiver(),
 * on the real library.  Prints every (geometry, height, width, region) where they differ; exit 1 if any. */
#include <ROOT-Sim.h>
#include <stdio.h>

int main(void)
{
	static const struct {enum topology_geometry g; const char *name; unsigned ndirs;} geos[] = {
	    {TOPOLOGY_HEXAGON, "hexagon", DIRECTION_RANDOM}, {TOPOLOGY_SQUARE, "square", DIRECTION_RANDOM}, {TOPOLOGY_TORUS, "torus", DIRECTION_RANDOM}};
	unsigned bad = 0;
	for(unsigned k = 0; k < 3; k++)
		for(unsigned h = 1; h <= 5; h++)
			for(unsigned w = 1; w <= 5; w++) {
				struct topology *t = InitializeTopology(geos[k].g, h, w);
				for(lp_id_t from = 0; from < h * w; from++) {
					unsigned valid = 0;
					for(unsigned d = 0; d < geos[k].ndirs; d++)
						valid += GetReceiver(from, t, d) != INVALID_DIRECTION;
					lp_id_t c = CountDirections(from, t);
					if(c != valid) {
						if(bad < 40)
							printf("%s height %u width %u region %lu (x=%lu y=%lu): %u valid fixed directions, CountDirections() = %lu\n",
							    geos[k].name, h, w, (unsigned long)from, (unsigned long)(from % w), (unsigned long)(from / w), valid, (unsigned long)c);
						bad++;
					}
				}
				ReleaseTopology(t);
			}
	printf("%u disagreements\n", bad);
	return bad != 0;
}
