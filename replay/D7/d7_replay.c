/* Replay of finding D7 (property C20): per-thread statistics record counts differ.
 *
 * Nothing in ROOT-Sim/core is modified.  The program links the real library and wraps gvt_phase_run() at link time
 * (-Wl,--wrap) only to make ONE worker thread slower by a pure delay after calls that returned "no new GVT" -- a
 * schedule the operating system may produce on its own.  A thread that leaves the worker loop in the middle of a GVT
 * round completes that round in gvt_msg_drain()'s flush loop, where the value is discarded, while the threads that
 * completed the same round inside their worker loop wrote a statistics record for it.
 */
#include <ROOT-Sim.h>
#include <core/core.h>

#include <stdio.h>
#include <stdlib.h>
#include <string.h>
#include <unistd.h>

extern simtime_t __real_gvt_phase_run(void);
static unsigned delay_us = 300;

simtime_t __wrap_gvt_phase_run(void)
{
	simtime_t r = __real_gvt_phase_run();
	if(rid == 1 && r == 0.0)
		usleep(delay_us);
	return r;
}

#define N_LPS 8
#define END_T 40.0

struct st { unsigned cnt; double now; };

static void handler(lp_id_t me, simtime_t now, unsigned type, const void *pl, unsigned sz, void *s)
{
	(void)pl; (void)sz;
	struct st *st = s;
	switch(type) {
		case LP_INIT:
			st = rs_malloc(sizeof(*st));
			memset(st, 0, sizeof(*st));
			SetState(st);
			ScheduleNewEvent(me, 0.5 + Random(), 1, NULL, 0);
			break;
		case LP_FINI:
			break;
		default:
			st->cnt++;
			st->now = now;
			ScheduleNewEvent((me + 1) % N_LPS, now + 0.05 + Random() * 0.1, 1, NULL, 0);
			break;
	}
}

static bool can_end(lp_id_t me, const void *s)
{
	/* the LPs hosted by thread 1 (ids 2 and 3 of 8 on 4 threads) are satisfied early: that thread votes in an earlier GVT
	 * round than the others, so it is not needed for the deciding round to be recognised */
	double t = (me == 2 || me == 3) ? END_T / 2 : END_T;
	return ((const struct st *)s)->now >= t;
}

int main(int argc, char **argv)
{
	if(argc > 2)
		delay_us = atoi(argv[2]);
	struct simulation_configuration conf = {.lps = N_LPS, .n_threads = 4, .gvt_period = 0, .log_level = LOG_SILENT,
	    .stats_file = argc > 1 ? argv[1] : "d7_stats", .ckpt_interval = 0, .prng_seed = 7, .serial = false,
	    .dispatcher = handler, .committed = can_end};
	RootsimInit(&conf);
	return RootsimRun();
}
