#!/bin/bash
# Builds the real library from /repo's current tree in a scratch directory and tries up to $TRIES runs; exits 1 as soon as
# a statistics file has different record counts for the node / its threads (the finding), 0 if none was produced.
set -e
here=$(cd "$(dirname "$0")" && pwd); repo=${REPO:-/repo}; tries=${TRIES:-40}
tmp=$(mktemp -d /tmp/d7-replay-XXXXXX); trap 'rm -rf $tmp' EXIT
cmake -G Ninja -S $repo -B $tmp/b -DCMAKE_BUILD_TYPE=RelWithDebInfo -DCMAKE_C_FLAGS=-Wno-error >/dev/null 2>&1
cmake --build $tmp/b --target rscore >/dev/null 2>&1
mpicc -O1 -I$repo/src $here/d7_replay.c -Wl,--wrap=gvt_phase_run $tmp/b/src/librscore.a -lm -lpthread -o $tmp/d7
cd $tmp
for n in $(seq 1 $tries); do
  for delay in 300 1000 100; do
    rm -f s.bin; timeout 120 ./d7 s $delay >/dev/null 2>&1 || true
    [ -f s.bin ] || continue
    if ! python3 $here/count_records.py s.bin > counts.txt 2>/dev/null; then
       echo "D7 reproduced (attempt $n, delay ${delay}us): [node, thread0, thread1, ...] record counts = $(cat counts.txt)"; exit 1
    fi
  done
done
echo "not reproduced in $tries attempts (last counts $(cat counts.txt))"; exit 0
