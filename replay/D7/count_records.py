#!/usr/bin/env python3
"""Count the per-GVT records of the node and of every thread in a ROOT-Sim statistics file (documented layout, same as
src/log/parse/rootsim_stats.py but WITHOUT its silent truncation to the shortest list)."""
import struct, sys
d = open(sys.argv[1], "rb").read()
i = 0
def up(fmt):
    global i
    n = struct.calcsize("<" + fmt); v = struct.unpack("<" + fmt, d[i:i + n]); i += n; return v
assert up("H")[0] == 61455
nstats = up("q")[0]
for _ in range(nstats):
    l = up("B")[0]; i += l
nodes = up("q")[0]
out = []
for _ in range(nodes):
    g = up("9Q"); nthr = g[0]
    nb = up("q")[0]; i += nb
    counts = [nb // 16]
    for _ in range(nthr):
        tb = up("q")[0]; i += tb
        counts.append(tb // (8 * nstats))
    out.append(counts)
assert i == len(d)
print(out)
sys.exit(0 if all(len(set(c)) == 1 for c in out) else 1)
