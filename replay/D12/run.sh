#!/bin/bash
# Builds the real library from /repo's current tree in a scratch directory and runs a 2-LP model on 3 MPI ranks.
# exit 1: the run neither finished nor refused to start within $LIMIT seconds (the finding); exit 0 otherwise.
here=$(cd "$(dirname "$0")" && pwd); repo=${REPO:-/repo}; limit=${LIMIT:-120}
tmp=$(mktemp -d /tmp/d12-replay-XXXXXX); trap 'rm -rf $tmp' EXIT
cmake -G Ninja -S $repo -B $tmp/b -DCMAKE_BUILD_TYPE=RelWithDebInfo -DCMAKE_C_FLAGS=-Wno-error >/dev/null 2>&1 || { echo "configure failed"; exit 2; }
cmake --build $tmp/b --target rscore >/dev/null 2>&1 || { echo "build failed"; exit 2; }
mpicc -O1 -I$repo/src $here/d12_replay.c $tmp/b/src/librscore.a -lm -lpthread -o $tmp/d12 || { echo "link failed"; exit 2; }
cd $tmp
# control: 2 ranks, one LP each, must finish
timeout $limit mpirun --allow-run-as-root --oversubscribe -n 2 ./d12 > ctl.txt 2>&1; rc=$?
[ $rc -eq 0 ] || { echo "control run (2 ranks) failed rc=$rc"; tail -3 ctl.txt; exit 2; }
timeout $limit mpirun --allow-run-as-root --oversubscribe -n 3 ./d12 > out.txt 2>&1; rc=$?
if [ $rc -eq 124 ]; then echo "D12 reproduced: 2 LPs on 3 ranks did not finish within $limit s (2 ranks finish)"; exit 1; fi
echo "3 ranks: mpirun rc=$rc: $(tail -2 out.txt | tr '\n' ' ')"; exit 0
