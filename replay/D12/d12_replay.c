/* Replay of finding D12 (property C08): a rank that is assigned no LP.
 *
 * Nothing in ROOT-Sim/core is modified.  A plain model with 2 LPs is run on 3 MPI ranks.  lp_global_init() gives the
 * last rank no LP and lowers its thread count to n_lps_node == 0; that rank starts no worker, never takes part in a GVT
 * reduction and leaves, while the other ranks wait forever for its contribution to the collectives.
 */
#include <ROOT-Sim.h>

#include <stdio.h>
#include <stdlib.h>
#include <string.h>

#define END_T 20.0
struct st { double now; };

static void handler(lp_id_t me, simtime_t now, unsigned type, const void *pl, unsigned sz, void *s)
{
	(void)pl; (void)sz;
	struct st *st = s;
	switch(type) {
		case LP_INIT:
			st = rs_malloc(sizeof(*st));
			memset(st, 0, sizeof(*st));
			SetState(st);
			ScheduleNewEvent(me, 0.5 + Random(), 1, NULL, 0);
			break;
		case LP_FINI:
			break;
		default:
			st->now = now;
			ScheduleNewEvent(me, now + 0.1 + Random() * 0.1, 1, NULL, 0);
			break;
	}
}

static bool can_end(lp_id_t me, const void *s) { (void)me; return ((const struct st *)s)->now >= END_T; }

int main(void)
{
	struct simulation_configuration conf = {.lps = 2, .n_threads = 1, .termination_time = 0, .gvt_period = 1000,
	    .log_level = LOG_SILENT, .stats_file = NULL, .ckpt_interval = 0, .prng_seed = 0, .core_binding = false,
	    .serial = false, .dispatcher = handler, .committed = can_end};
	RootsimInit(&conf);
	int r = RootsimRun();
	printf("RootsimRun returned %d\n", r);
	return r;
}
