#!/bin/bash
set -e
here=$(cd "$(dirname "$0")" && pwd); repo=${REPO:-/repo}
tmp=$(mktemp -d /tmp/d10-replay-XXXXXX); trap 'rm -rf $tmp' EXIT
cmake -G Ninja -S $repo -B $tmp/b -DCMAKE_BUILD_TYPE=RelWithDebInfo -DCMAKE_C_FLAGS=-Wno-error >/dev/null 2>&1
cmake --build $tmp/b --target rscore >/dev/null 2>&1
mpicc -O1 -I$repo/src $here/d10_replay.c $tmp/b/src/librscore.a -lm -lpthread -o $tmp/d10
$tmp/d10
