/* Replay of finding D10 (property C19): DIRECTION_RANDOM on a one-region topology, on the real library.
 * GetReceiver() must return INVALID_DIRECTION or a region inside the topology that IsNeighbor() confirms. */
#include <ROOT-Sim.h>
#include <stdio.h>
#include <string.h>
#include <lib/random/random.h>
#include <lp/lp.h>

int main(void)
{
	static const struct {enum topology_geometry g; const char *name;} geos[] = {
	    {TOPOLOGY_STAR, "star"}, {TOPOLOGY_FCMESH, "mesh"}, {TOPOLOGY_RING, "ring"}, {TOPOLOGY_BIDRING, "bidring"}};
	static struct lp_ctx lp;
	static struct rng_ctx rng;
	rng.state[0] = 0x9E3779B97F4A7C15ULL; rng.state[1] = 0xBF58476D1CE4E5B9ULL; rng.state[2] = 0x94D049BB133111EBULL; rng.state[3] = 0x2545F4914F6CDD1DULL;
	lp.rng_ctx = &rng;
	current_lp = &lp;
	unsigned bad = 0;
	for(unsigned k = 0; k < 4; k++) {
		struct topology *t = InitializeTopology(geos[k].g, 1);
		for(unsigned i = 0; i < 100; i++) {
			lp_id_t r = GetReceiver(0, t, DIRECTION_RANDOM);
			if(r != INVALID_DIRECTION && (r >= CountRegions(t) || !IsNeighbor(0, r, t))) {
				if(!bad || i == 0)
					printf("%s with 1 region: GetReceiver(0, DIRECTION_RANDOM) = %lu, regions = %lu, IsNeighbor = %d\n",
					    geos[k].name, (unsigned long)r, (unsigned long)CountRegions(t), (int)IsNeighbor(0, r, t));
				bad++;
			}
		}
		ReleaseTopology(t);
	}
	printf("%u bad answers\n", bad);
	return bad != 0;
}
